// Sequential conformance harness for device/props/storage.c (property C13), built from the tree under test on every check.
//
//   replay <behaviours.txt> <trace-prefix> <chunk-events> <alloc-mode>
//       spec -> code: behaviours exported by TLC from PropsImpl (call sequences with the expected return value and the
//       expected canonical projection after the steps marked for comparison) are replayed into the real functions;
//       a difference is printed as a MISMATCH line (drift).  Every execution is also recorded as an observation trace.
//   random <seed> <nseq> <maxlen> <trace-prefix> <chunk-events>
//       code -> spec: seeded random call sequences (3..4 objects, arbitrary strings: NULL, empty, long, not terminated,
//       zero-byte, embedded NUL; 0..6 dimensions; copies in both directions; borrowed is_ref strings).
//   script <ops.txt> <trace-file> <alloc-mode>
//       one call sequence (same op encoding), used by `check C13 --replay`.
//
// Allocator seam: the executable is linked with --wrap=malloc,--wrap=realloc,--wrap=free,--wrap=calloc.  While the
// flag `in_lib` is set (only around calls into storage.c; the only other object in the link is this file, whose
// aq_logger stub allocates nothing) the wrappers serve the request from a private arena, give every address a small
// id and record M/R/F events; otherwise they forward to the C library.  Released arena blocks are scribbled (0xDD),
// never unmapped and (alloc-mode 0) never reused, so that a stale pointer stays recognisable; alloc-mode 1 reuses
// released blocks of the same size LIFO, the way a real allocator does.  A release of something that is not a live
// arena block is recorded, never executed.
//
// Built with -fsanitize=address (-fsanitize-recover=address) the arena is additionally poisoned, so that a read or a
// write of released / never allocated arena memory by storage.c produces a sanitizer report; the report callback turns it
// into a `San` event of the trace.  SIGSEGV/SIGBUS/SIGFPE/SIGABRT/SIGALRM inside the library become a `Crash` event.
// The observation specification (PropsObs.tla) decides; nothing here does.
#include "device/props/storage.h"

#include <csetjmp>
#include <csignal>
#include <cstdarg>
#include <cstdint>
#include <cstdio>
#include <cstdlib>
#include <cstring>
#include <string>
#include <unordered_map>
#include <vector>
#include <unistd.h>
#include <fcntl.h>

#if defined(__SANITIZE_ADDRESS__)
#include <sanitizer/asan_interface.h>
#define HAVE_ASAN 1
#define NOSAN __attribute__((no_sanitize_address, noinline))
#else
#define HAVE_ASAN 0
#define ASAN_POISON_MEMORY_REGION(a, n) ((void)(a), (void)(n))
#define ASAN_UNPOISON_MEMORY_REGION(a, n) ((void)(a), (void)(n))
#define NOSAN __attribute__((noinline))
#endif

extern "C"
{
    void* __real_malloc(size_t);
    void* __real_realloc(void*, size_t);
    void* __real_calloc(size_t, size_t);
    void __real_free(void*);
    void* __wrap_malloc(size_t);
    void* __wrap_realloc(void*, size_t);
    void* __wrap_calloc(size_t, size_t);
    void __wrap_free(void*);
    void aq_logger(int is_error, const char* file, int line, const char* function, const char* fmt, ...);
#if HAVE_ASAN
    const char* __asan_default_options(void);
#endif
}

// ------------------------------------------------------------------------------------------------------------------
// trace output

static int trace_fd = -1;
static char evbuf[1 << 16];
static size_t evlen = 0;
static long n_events = 0, n_events_chunk = 0;
static std::string trace_prefix;
static int chunk_no = 0;
static long chunk_events = 1 << 30;
static bool single_file = false;
static bool trace_on = true; // prefix "-": compare only, record nothing

static void
ev_flush()
{
    if (trace_fd < 0) {
        evlen = 0;
        return;
    }
    size_t off = 0;
    while (off < evlen) {
        ssize_t w = write(trace_fd, evbuf + off, evlen - off);
        if (w <= 0)
            break;
        off += (size_t)w;
    }
    evlen = 0;
}

static void
ev_raw(const char* s, size_t n)
{
    if (!trace_on)
        return;
    if (evlen + n > sizeof evbuf)
        ev_flush();
    if (n > sizeof evbuf)
        n = sizeof evbuf;
    memcpy(evbuf + evlen, s, n);
    evlen += n;
}

static void
ev(const char* fmt, ...)
{
    if (!trace_on)
        return;
    char line[8192];
    va_list ap;
    va_start(ap, fmt);
    int n = vsnprintf(line, sizeof line - 2, fmt, ap);
    va_end(ap);
    if (n < 0)
        return;
    if (n > (int)sizeof line - 2)
        n = sizeof line - 2;
    line[n++] = '\n';
    ev_raw(line, (size_t)n);
    ++n_events;
    ++n_events_chunk;
}

static void
open_chunk()
{
    trace_on = trace_prefix != "-";
    if (!trace_on) {
        chunk_no = 0;
        return;
    }
    if (trace_fd >= 0) {
        ev_flush();
        close(trace_fd);
    }
    char name[1024];
    if (single_file)
        snprintf(name, sizeof name, "%s", trace_prefix.c_str());
    else
        snprintf(name, sizeof name, "%s.%04d.ndjson", trace_prefix.c_str(), chunk_no);
    trace_fd = open(name, O_WRONLY | O_CREAT | O_TRUNC, 0644);
    if (trace_fd < 0) {
        fprintf(stderr, "cannot open %s\n", name);
        exit(3);
    }
    ++chunk_no;
    n_events_chunk = 0;
}

// ------------------------------------------------------------------------------------------------------------------
// the arena behind the allocator seam

#define ARENA_BYTES (8u << 20)
#define RZ 32
static unsigned char arena[ARENA_BYTES] __attribute__((aligned(64)));
static size_t bump = 0;
struct Block
{
    size_t off, size, cap;
    int live;
};
static Block blocks[1 << 14];
static int nblocks = 0;
static volatile int in_lib = 0;
static int alloc_mode = 0; // 0 = never reuse an address, 1 = LIFO reuse of released blocks of the same size
static long n_alloc_ev = 0, n_foreign = 0;

static void
arena_reset()
{
    ASAN_POISON_MEMORY_REGION(arena, bump + RZ < ARENA_BYTES ? bump + RZ : ARENA_BYTES);
    bump = 0;
    nblocks = 0;
}

// block index (0-based) and offset of a pointer into the arena, or -1
static int
arena_find(const void* p, size_t* off)
{
    const unsigned char* q = (const unsigned char*)p;
    if (q < arena || q >= arena + ARENA_BYTES)
        return -1;
    size_t o = (size_t)(q - arena);
    for (int i = nblocks - 1; i >= 0; --i) {
        if (o >= blocks[i].off && o < blocks[i].off + (blocks[i].cap ? blocks[i].cap : 1)) {
            if (off)
                *off = o - blocks[i].off;
            return i;
        }
    }
    return -1;
}

static NOSAN void
fill(unsigned char* p, int v, size_t n)
{
    for (size_t i = 0; i < n; ++i)
        p[i] = (unsigned char)v;
}

static int
arena_alloc(size_t n)
{
    if (n > ARENA_BYTES / 4)
        return -1;
    if (alloc_mode == 1) {
        for (int i = nblocks - 1; i >= 0; --i) {
            if (!blocks[i].live && blocks[i].cap == ((n + 15) & ~(size_t)15)) {
                blocks[i].live = 1;
                blocks[i].size = n;
                ASAN_UNPOISON_MEMORY_REGION(arena + blocks[i].off, n);
                fill(arena + blocks[i].off, 0xA5, n);
                return i;
            }
        }
    }
    size_t cap = (n + 15) & ~(size_t)15;
    if (nblocks >= (int)(sizeof blocks / sizeof blocks[0]) || bump + RZ + cap + RZ > ARENA_BYTES)
        return -1;
    Block& b = blocks[nblocks];
    b.off = bump + RZ;
    b.size = n;
    b.cap = cap;
    b.live = 1;
    bump = b.off + cap;
    ASAN_UNPOISON_MEMORY_REGION(arena + b.off, n);
    fill(arena + b.off, 0xA5, n); // malloc'ed memory holds junk
    return nblocks++;
}

static void
arena_release(int i)
{
    blocks[i].live = 0;
    ASAN_UNPOISON_MEMORY_REGION(arena + blocks[i].off, blocks[i].cap);
    fill(arena + blocks[i].off, 0xDD, blocks[i].cap);
    ASAN_POISON_MEMORY_REGION(arena + blocks[i].off, blocks[i].cap);
}

// caller-owned string buffers handed to the library (and possibly borrowed by an object with is_ref = 1)
#define CALLER_BYTES (1u << 20)
static unsigned char caller_mem[CALLER_BYTES];
static size_t caller_bump = 0;
struct CallerBuf
{
    size_t off, len;
    int kind; // model kind 1..6 if the spec is one of the model's caller strings, else 0
};
static std::vector<CallerBuf> caller_bufs;

static int
caller_find(const void* p)
{
    const unsigned char* q = (const unsigned char*)p;
    if (q < caller_mem || q >= caller_mem + CALLER_BYTES)
        return -1;
    size_t o = (size_t)(q - caller_mem);
    for (int i = (int)caller_bufs.size() - 1; i >= 0; --i)
        if (o >= caller_bufs[i].off && o < caller_bufs[i].off + caller_bufs[i].len + 16)
            return i;
    return -1;
}

extern "C" void*
__wrap_malloc(size_t n)
{
    if (!in_lib)
        return __real_malloc(n);
    int i = arena_alloc(n);
    ++n_alloc_ev;
    ev("{\"e\":\"M\",\"a\":%d,\"n\":%ld}", i + 1, (long)(n > (1u << 30) ? (1u << 30) : n));
    return i < 0 ? 0 : arena + blocks[i].off;
}

extern "C" void*
__wrap_calloc(size_t a, size_t b)
{
    if (!in_lib)
        return __real_calloc(a, b);
    size_t n = a * b;
    if (b && n / b != a)
        n = ~(size_t)0;
    int i = arena_alloc(n);
    ++n_alloc_ev;
    ev("{\"e\":\"M\",\"a\":%d,\"n\":%ld}", i + 1, (long)(n > (1u << 30) ? (1u << 30) : n));
    if (i < 0)
        return 0;
    fill(arena + blocks[i].off, 0, n);
    return arena + blocks[i].off;
}

// k: 0 = start of an arena block, 1 = inside an arena block, 2 = caller memory, 3 = NULL, 4 = unknown origin
static void
classify(const void* p, int* a, int* k)
{
    size_t off = 0;
    int i;
    if (!p) {
        *a = 0;
        *k = 3;
    } else if ((i = arena_find(p, &off)) >= 0) {
        *a = i + 1;
        *k = off ? 1 : 0;
    } else if ((i = caller_find(p)) >= 0) {
        *a = -(i + 1);
        *k = 2;
    } else {
        *a = -999;
        *k = 4;
    }
}

extern "C" void
__wrap_free(void* p)
{
    if (!in_lib) {
        __real_free(p);
        return;
    }
    int a, k;
    classify(p, &a, &k);
    ++n_alloc_ev;
    if (k == 4)
        ++n_foreign;
    ev("{\"e\":\"F\",\"a\":%d,\"k\":%d}", a, k);
    if (k == 0 && blocks[a - 1].live)
        arena_release(a - 1);
}

static NOSAN void
copy_bytes(unsigned char* d, const unsigned char* s, size_t n)
{
    for (size_t i = 0; i < n; ++i)
        d[i] = s[i];
}

extern "C" void*
__wrap_realloc(void* p, size_t n)
{
    if (!in_lib)
        return __real_realloc(p, n);
    int a, k;
    classify(p, &a, &k);
    ++n_alloc_ev;
    if (k == 4)
        ++n_foreign;
    int ok_old = (k == 0 && blocks[a - 1].live);
    if (p && !ok_old) { // realloc of something that is not a live block: recorded, not executed
        ev("{\"e\":\"R\",\"a\":%d,\"k\":%d,\"b\":0,\"n\":%ld}", a, k, (long)(n > (1u << 30) ? (1u << 30) : n));
        return 0;
    }
    size_t old = p ? blocks[a - 1].size : 0;
    if (p && alloc_mode == 1 && n <= blocks[a - 1].cap) { // in place
        blocks[a - 1].size = n;
        ASAN_POISON_MEMORY_REGION(arena + blocks[a - 1].off, blocks[a - 1].cap);
        ASAN_UNPOISON_MEMORY_REGION(arena + blocks[a - 1].off, n);
        ev("{\"e\":\"R\",\"a\":%d,\"k\":%d,\"b\":%d,\"n\":%ld}", a, k, a, (long)n);
        return p;
    }
    // allocate before releasing: the new block is never the old one unless the resize happened in place
    int i = arena_alloc(n);
    ev("{\"e\":\"R\",\"a\":%d,\"k\":%d,\"b\":%d,\"n\":%ld}", a, k, i + 1, (long)(n > (1u << 30) ? (1u << 30) : n));
    if (i < 0)
        return 0;
    if (p) {
        copy_bytes(arena + blocks[i].off, arena + blocks[a - 1].off, old < n ? old : n);
        arena_release(a - 1);
    }
    return arena + blocks[i].off;
}

static long n_log_err = 0;
extern "C" void
aq_logger(int is_error, const char* file, int line, const char* function, const char* fmt, ...)
{
    (void)file;
    (void)line;
    (void)function;
    (void)fmt;
    if (is_error)
        ++n_log_err;
}

// ------------------------------------------------------------------------------------------------------------------
// crash / sanitizer instruments

static sigjmp_buf crash_jb;
static volatile int crash_armed = 0;
static long n_crash = 0, n_san = 0;

static void
on_signal(int sig)
{
    if (crash_armed) {
        crash_armed = 0;
        siglongjmp(crash_jb, sig);
    }
    // a fault in the harness itself
    const char msg[] = "HARNESS-FAULT\n";
    ssize_t w = write(2, msg, sizeof msg - 1);
    (void)w;
    _exit(4);
}

#if HAVE_ASAN
extern "C" const char*
__asan_default_options(void)
{
    return "halt_on_error=0:suppress_equal_pcs=0:symbolize=0:log_path=/dev/null:print_legend=0:detect_leaks=0:"
           "allow_user_segv_handler=1:handle_segv=0:handle_sigbus=0:handle_abort=0:handle_sigfpe=0:poison_heap=1";
}
static void
on_asan_report(const char* r)
{
    const char* p = strstr(r, "AddressSanitizer: ");
    char kind[64] = "unknown";
    if (p) {
        p += 18;
        size_t i = 0;
        while (p[i] && p[i] != ' ' && p[i] != '\n' && i < sizeof kind - 1) {
            kind[i] = (p[i] == '"' || p[i] == '\\') ? '_' : p[i];
            ++i;
        }
        kind[i] = 0;
    }
    ++n_san;
    ev("{\"e\":\"San\",\"kind\":\"%s\",\"inlib\":%d}", kind, (int)in_lib);
}
#endif

// ------------------------------------------------------------------------------------------------------------------
// objects, strings, projections

#define MAXOBJ 4
#define MAXDIMS_PROJ 16
static struct StorageProperties P[MAXOBJ];
static int NOBJ = 2;

static std::unordered_map<std::string, int> content_ids;
static int
intern(const std::string& s)
{
    auto it = content_ids.find(s);
    if (it != content_ids.end())
        return it->second;
    int id = (int)content_ids.size();
    content_ids.emplace(s, id);
    return id;
}

struct SProj
{
    int p, n, r, c, t; // address id, nbytes, is_ref, content id (of the first nbytes-1 bytes), terminated
    int live;          // 1 unless p names a released arena block
    const void* raw;
    int canon_neg;     // for caller memory: -(model kind) or -(100+index)
};

static long
clampl(size_t v)
{
    return v > (size_t)(1u << 30) ? (long)(1u << 30) : (long)v;
}

// can [p, p+n) be read without leaving the block / caller buffer it points into?
static bool
readable(const void* p, size_t n)
{
    size_t off = 0;
    int i = arena_find(p, &off);
    if (i >= 0)
        return off + n <= blocks[i].cap && n <= ARENA_BYTES;
    i = caller_find(p);
    if (i >= 0) {
        size_t o = (size_t)((const unsigned char*)p - caller_mem) - caller_bufs[i].off;
        return o + n <= caller_bufs[i].len + 16;
    }
    return false;
}

static SProj
project_string(const struct String* S)
{
    SProj r;
    int k;
    struct String s;
    copy_bytes((unsigned char*)&s, (const unsigned char*)S, sizeof s);
    classify(s.str, &r.p, &k);
    if (k == 1)
        r.p = -998;
    r.raw = s.str;
    r.n = (int)clampl(s.nbytes);
    r.r = s.is_ref;
    r.live = 1;
    r.canon_neg = r.p;
    if (k == 0)
        r.live = blocks[r.p - 1].live;
    if (k == 2) {
        int i = -r.p - 1;
        r.canon_neg = caller_bufs[i].kind ? -caller_bufs[i].kind : -(100 + i);
    }
    if (!s.str || s.nbytes == 0) {
        r.c = 0;
        r.t = 1;
    } else if (s.nbytes <= (1u << 20) && readable(s.str, s.nbytes)) {
        std::vector<unsigned char> tmp(s.nbytes);
        copy_bytes(tmp.data(), (const unsigned char*)s.str, s.nbytes);
        r.t = tmp[s.nbytes - 1] == 0;
        r.c = intern(std::string((const char*)tmp.data(), s.nbytes - 1));
    } else {
        r.c = -1;
        r.t = 0;
    }
    return r;
}

struct DProj
{
    SProj nm;
    int k, a, c, s;
};
struct OProj
{
    SProj s[4];
    int f, px, py, ms;
    int dp, dn, dlive;
    const void* draw;
    std::vector<DProj> d;
};

static int
small(double v)
{
    double w = v * 4;
    if (!(w >= -1e6 && w <= 1e6))
        return -1;
    return (int)w;
}
static int
smallu(uint32_t v)
{
    return v > (1u << 30) ? (1 << 30) : (int)v;
}

static OProj
project(const struct StorageProperties* o)
{
    OProj r;
    r.s[0] = project_string(&o->uri);
    r.s[1] = project_string(&o->external_metadata_json);
    r.s[2] = project_string(&o->access_key_id);
    r.s[3] = project_string(&o->secret_access_key);
    r.f = smallu(o->first_frame_id);
    r.px = small(o->pixel_scale_um.x);
    r.py = small(o->pixel_scale_um.y);
    r.ms = o->enable_multiscale;
    int k;
    classify(o->acquisition_dimensions.data, &r.dp, &k);
    if (k == 1)
        r.dp = -998;
    r.draw = o->acquisition_dimensions.data;
    r.dn = (int)clampl(o->acquisition_dimensions.size);
    r.dlive = k == 0 ? blocks[r.dp - 1].live : 1;
    size_t n = o->acquisition_dimensions.size;
    if (o->acquisition_dimensions.data && n > 0 && n <= MAXDIMS_PROJ && k == 0 &&
        readable(o->acquisition_dimensions.data, n * sizeof(struct StorageDimension))) {
        std::vector<struct StorageDimension> tmp(n);
        copy_bytes((unsigned char*)tmp.data(), (const unsigned char*)o->acquisition_dimensions.data, n * sizeof(struct StorageDimension));
        for (size_t i = 0; i < n; ++i) {
            DProj d;
            d.nm = project_string(&tmp[i].name);
            d.k = smallu((uint32_t)tmp[i].kind);
            d.a = smallu(tmp[i].array_size_px);
            d.c = smallu(tmp[i].chunk_size_px);
            d.s = smallu(tmp[i].shard_size_chunks);
            r.d.push_back(d);
        }
    }
    return r;
}

static void
append_sproj(std::string& out, const SProj& s)
{
    char b[96];
    snprintf(b, sizeof b, "[%d,%d,%d,%d,%d]", s.p, s.n, s.r, s.c, s.t);
    out += b;
}

static std::string
objs_json(const std::vector<OProj>& v)
{
    std::string out = "[";
    for (size_t i = 0; i < v.size(); ++i) {
        const OProj& o = v[i];
        if (i)
            out += ",";
        out += "{\"s\":[";
        for (int j = 0; j < 4; ++j) {
            if (j)
                out += ",";
            append_sproj(out, o.s[j]);
        }
        char b[160];
        snprintf(b, sizeof b, "],\"f\":%d,\"px\":%d,\"py\":%d,\"ms\":%d,\"dp\":%d,\"dn\":%d,\"d\":[", o.f, o.px, o.py, o.ms, o.dp, o.dn);
        out += b;
        for (size_t j = 0; j < o.d.size(); ++j) {
            if (j)
                out += ",";
            out += "{\"nm\":";
            append_sproj(out, o.d[j].nm);
            snprintf(b, sizeof b, ",\"k\":%d,\"a\":%d,\"c\":%d,\"s\":%d}", o.d[j].k, o.d[j].a, o.d[j].c, o.d[j].s);
            out += b;
        }
        out += "]}";
    }
    out += "]";
    return out;
}

// canonical flat projection, compared with PropsImpl's ProjOf: a pointer is named by the position (1-based) of the
// first slot that holds it, in the order: per object uri, metadata, key, secret, dimension array, then each name.
static std::vector<int>
flat_projection(const std::vector<OProj>& v)
{
    std::vector<const void*> trav;
    for (const OProj& o : v) {
        for (int j = 0; j < 4; ++j)
            trav.push_back(o.s[j].p > 0 ? o.s[j].raw : nullptr);
        trav.push_back(o.dp > 0 ? o.draw : nullptr);
        for (const DProj& d : o.d)
            trav.push_back(d.nm.p > 0 ? d.nm.raw : nullptr);
    }
    auto canon = [&](int p, const void* raw, int neg) -> int {
        if (p == 0)
            return 0;
        if (p < 0)
            return neg;
        for (size_t i = 0; i < trav.size(); ++i)
            if (trav[i] == raw)
                return (int)i + 1;
        return -1;
    };
    std::vector<int> f;
    auto push_s = [&](const SProj& s) {
        f.push_back(canon(s.p, s.raw, s.canon_neg));
        f.push_back(s.n);
        f.push_back(s.r);
        f.push_back(s.c);
        f.push_back(s.t);
        f.push_back(s.live);
    };
    for (const OProj& o : v) {
        for (int j = 0; j < 4; ++j)
            push_s(o.s[j]);
        f.push_back(o.f);
        f.push_back(o.px);
        f.push_back(o.py);
        f.push_back(o.ms);
        f.push_back(canon(o.dp, o.draw, o.dp));
        f.push_back(o.dn);
        f.push_back(o.dlive);
        for (const DProj& d : o.d) {
            push_s(d.nm);
            f.push_back(d.k);
            f.push_back(d.a);
            f.push_back(d.c);
            f.push_back(d.s);
        }
    }
    return f;
}

// ------------------------------------------------------------------------------------------------------------------
// operations.  An op is 11 ints: f o a1..a9.
//   1 init     o nd  m l f  m l f         (first_frame_id = o+1, pixel scale = ((o+1)/2, (o+1)/4))
//   2 set_uri  o m l f        3 set_external_metadata o m l f       4 set_access_key_and_secret o m l f m l f
//   5 set_dimension o index  m l f  kind v   (array_size_px = 16v, chunk_size_px = v, shard_size_chunks = 2v)
//   6 set_enable_multiscale o b           7 copy dst src            8 destroy o
//   9 borrow o field m l f   (the client points field 1 = uri / 2 = metadata at its own buffer, is_ref = 1)
// A string (m l f): m = 0 NULL pointer with nbytes l; 1 l bytes ending in NUL; 2 l bytes without NUL;
//   3 a valid buffer but nbytes 0; 4 l bytes ending in NUL with a NUL in the middle.  Bytes come from generator f.
struct Op
{
    int v[11];
};
static const char* FN[] = { "?", "init", "set_uri", "set_meta", "set_keys", "set_dim", "set_ms", "copy", "destroy", "borrow" };

struct CStr
{
    const char* p;
    size_t n;
};

static unsigned char
gen_byte(int f, size_t i)
{
    int start = f == 1 ? 0 : f == 2 ? 23 : (f * 7) % 26;
    if (f >= 60) // bytes outside the alphabet: high bit, control characters
        return (unsigned char)(1 + (f * 31 + i * 17) % 254);
    return (unsigned char)('a' + (start + (int)i) % 26);
}

static CStr
make_string(int m, int l, int f)
{
    CStr r = { 0, 0 };
    if (l < 0)
        l = 0;
    if (m == 0) {
        r.n = (size_t)l;
        return r;
    }
    size_t len = (size_t)l;
    size_t body = (m == 3) ? 2 : len;
    if (caller_bump + body + 16 > CALLER_BYTES) {
        fprintf(stderr, "caller memory exhausted\n");
        exit(3);
    }
    unsigned char* b = caller_mem + caller_bump;
    CallerBuf cb = { caller_bump, body, 0 };
    caller_bump += body + 16;
    for (size_t i = 0; i < body; ++i)
        b[i] = gen_byte(f, i);
    if ((m == 1 || m == 4) && body > 0)
        b[body - 1] = 0;
    if (m == 4 && body > 2)
        b[body / 2] = 0;
    // what follows the buffer: not a terminator straight away (an unterminated string really is unterminated), but
    // the memory after it is the caller's and ends in a NUL, so that the C library's own string functions stay in bounds
    for (size_t i = 0; i < 15; ++i)
        b[body + i] = 'Q';
    b[body + 15] = 0;
    if (m == 1 && l == 1)
        cb.kind = 1;
    else if (m == 1 && l == 3 && f == 1)
        cb.kind = 2;
    else if (m == 1 && l == 9 && f == 1)
        cb.kind = 3;
    else if (m == 2 && l == 3 && f == 2)
        cb.kind = 4;
    else if (m == 3 && f == 1)
        cb.kind = 5;
    caller_bufs.push_back(cb);
    r.p = (const char*)b;
    r.n = (m == 3) ? 0 : len;
    return r;
}

static void
reset_world(int nobj)
{
    NOBJ = nobj;
    arena_reset();
    caller_bump = 0;
    caller_bufs.clear();
    memset(P, 0, sizeof P);
    ev("{\"e\":\"Reset\",\"nobj\":%d,\"sz\":%d,\"mode\":%d,\"asan\":%d}", nobj, (int)sizeof(struct StorageDimension), alloc_mode, HAVE_ASAN);
}

static std::vector<OProj>
project_all()
{
    std::vector<OProj> v;
    for (int i = 0; i < NOBJ; ++i)
        v.push_back(project(&P[i]));
    return v;
}

// runs one op against the real functions; returns the function's result (1 for void functions), -1000 after a crash
static int
do_op(const Op& op, std::vector<OProj>* post)
{
    const int* a = op.v;
    int f = a[0], o = a[1];
    if (f < 1 || f > 9 || o < 0 || o >= NOBJ || (f == 7 && (a[2] < 0 || a[2] >= NOBJ || a[2] == o))) {
        fprintf(stderr, "bad op %d %d %d\n", f, o, a[2]);
        exit(3);
    }
    CStr s1 = { 0, 0 }, s2 = { 0, 0 };
    switch (f) {
        case 1:
            s1 = make_string(a[3], a[4], a[5]);
            s2 = make_string(a[6], a[7], a[8]);
            break;
        case 2:
        case 3:
            s1 = make_string(a[2], a[3], a[4]);
            break;
        case 4:
            s1 = make_string(a[2], a[3], a[4]);
            s2 = make_string(a[5], a[6], a[7]);
            break;
        case 9:
            if (a[3] == 9)
                break;
            // fallthrough
        case 5:
            s1 = make_string(a[3], a[4], a[5]);
            break;
    }
    ev("{\"e\":\"Call\",\"f\":\"%s\",\"o\":%d,\"s\":%d,\"op\":[%d,%d,%d,%d,%d,%d,%d,%d,%d,%d,%d]}", FN[f], o + 1, f == 7 ? a[2] + 1 : 0,
       a[0], a[1], a[2], a[3], a[4], a[5], a[6], a[7], a[8], a[9], a[10]);
    ev_flush();
    volatile int ret = 1;
    int sig = sigsetjmp(crash_jb, 1);
    if (sig == 0) {
        crash_armed = 1;
        struct StorageProperties* self = &P[o];
        struct PixelScale ps = { (o + 1) * 0.5, (o + 1) * 0.25 };
        in_lib = 1;
        switch (f) {
            case 1:
                ret = storage_properties_init(self, (uint32_t)(o + 1), s1.p, s1.n, s2.p, s2.n, ps, (uint8_t)a[2]);
                break;
            case 2:
                ret = storage_properties_set_uri(self, s1.p, s1.n);
                break;
            case 3:
                ret = storage_properties_set_external_metadata(self, s1.p, s1.n);
                break;
            case 4:
                ret = storage_properties_set_access_key_and_secret(self, s1.p, s1.n, s2.p, s2.n);
                break;
            case 5:
                ret = storage_properties_set_dimension(self, a[2], s1.p, s1.n, (enum DimensionType)a[6], (uint32_t)(16 * a[7]),
                                                       (uint32_t)a[7], (uint32_t)(2 * a[7]));
                break;
            case 6:
                ret = storage_properties_set_enable_multiscale(self, (uint8_t)a[2]);
                break;
            case 7:
                ret = storage_properties_copy(self, &P[a[2]]);
                break;
            case 8:
                storage_properties_destroy(self);
                break;
            case 9: {
                in_lib = 0;
                struct String* S = a[2] == 2 ? &self->external_metadata_json : &self->uri;
                if (a[3] == 9) { // alias: the client points the field at the same field of object a[4] (as a shallow struct copy does)
                    const struct String* T = a[2] == 2 ? &P[a[4]].external_metadata_json : &P[a[4]].uri;
                    S->str = T->str;
                    S->nbytes = T->nbytes;
                } else {
                    S->str = (char*)s1.p;
                    S->nbytes = s1.n;
                }
                S->is_ref = 1;
            } break;
        }
        in_lib = 0;
        crash_armed = 0;
    } else {
        in_lib = 0;
        ++n_crash;
        ev("{\"e\":\"Crash\",\"sig\":%d}", sig);
        // the signal was raised inside the handler's context; make sure later faults are delivered again
        sigset_t ss;
        sigemptyset(&ss);
        sigprocmask(SIG_SETMASK, &ss, 0);
        return -1000;
    }
    std::vector<OProj> v = project_all();
    if (trace_on) {
        std::string js = objs_json(v);
        std::string line = "{\"e\":\"Ret\",\"r\":" + std::to_string((int)ret) + ",\"objs\":" + js + "}\n";
        ev_raw(line.data(), line.size());
        ++n_events;
        ++n_events_chunk;
    }
    if (post)
        *post = v;
    return ret;
}

static bool
owns_something(const struct StorageProperties* o)
{
    const struct String* ss[4] = { &o->uri, &o->external_metadata_json, &o->access_key_id, &o->secret_access_key };
    for (int i = 0; i < 4; ++i)
        if (ss[i]->str && !ss[i]->is_ref)
            return true;
    return o->acquisition_dimensions.data != 0;
}

static void
end_execution(bool crashed)
{
    if (!crashed) {
        // every execution ends with all objects destroyed, so that "nothing stays allocated" is always examined
        for (int o = 0; o < NOBJ; ++o) {
            Op op = { { 8, o, 0, 0, 0, 0, 0, 0, 0, 0, 0 } };
            if (do_op(op, 0) == -1000)
                break;
        }
    }
    ev("{\"e\":\"End\"}");
    if (!single_file && n_events_chunk >= chunk_events)
        open_chunk();
}

static void
install_handlers()
{
    struct sigaction sa;
    memset(&sa, 0, sizeof sa);
    sa.sa_handler = on_signal;
    sigemptyset(&sa.sa_mask);
    sa.sa_flags = SA_NODEFER;
    int sigs[] = { SIGSEGV, SIGBUS, SIGFPE, SIGABRT, SIGALRM, SIGILL };
    for (int s : sigs)
        sigaction(s, &sa, 0);
#if HAVE_ASAN
    __asan_set_error_report_callback(on_asan_report);
    ASAN_POISON_MEMORY_REGION(arena, ARENA_BYTES);
#endif
}

// ------------------------------------------------------------------------------------------------------------------
static long n_beh = 0, n_steps = 0, n_compared = 0, n_mismatch = 0;

static bool
next_int(FILE* f, long* v)
{
    return fscanf(f, "%ld", v) == 1;
}

static int
cmd_replay(int argc, char** argv)
{
    if (argc < 6)
        return 3;
    FILE* f = fopen(argv[2], "r");
    if (!f)
        return 3;
    trace_prefix = argv[3];
    chunk_events = atol(argv[4]);
    alloc_mode = atoi(argv[5]);
    open_chunk();
    char tag[8];
    while (fscanf(f, "%7s", tag) == 1) {
        if (strcmp(tag, "B") != 0) {
            fprintf(stderr, "bad behaviour file near '%s'\n", tag);
            return 3;
        }
        long nobj, nst;
        if (!next_int(f, &nobj) || !next_int(f, &nst) || nobj < 1 || nobj > MAXOBJ)
            return 3;
        alarm(30);
        reset_world((int)nobj);
        ++n_beh;
        bool crashed = false;
        for (long s = 0; s < nst; ++s) {
            Op op;
            long x;
            for (int i = 0; i < 11; ++i) {
                if (!next_int(f, &x))
                    return 3;
                op.v[i] = (int)x;
            }
            long chk;
            if (!next_int(f, &chk))
                return 3;
            long eret = 0, en = 0;
            std::vector<int> exp;
            if (chk) {
                if (!next_int(f, &eret) || !next_int(f, &en))
                    return 3;
                exp.resize((size_t)en);
                for (long i = 0; i < en; ++i) {
                    if (!next_int(f, &x))
                        return 3;
                    exp[(size_t)i] = (int)x;
                }
            }
            if (crashed)
                continue;
            std::vector<OProj> post;
            int ret = do_op(op, &post);
            ++n_steps;
            if (ret == -1000) {
                crashed = true;
                if (chk) {
                    ++n_compared;
                    ++n_mismatch;
                    if (n_mismatch <= 20)
                        printf("MISMATCH behaviour %ld step %ld op %s(%d,%d,..): the implementation crashed\n", n_beh, s + 1, FN[op.v[0]], op.v[1], op.v[2]);
                }
                continue;
            }
            if (chk) {
                ++n_compared;
                std::vector<int> got = flat_projection(post);
                if (ret != eret || got != exp) {
                    ++n_mismatch;
                    if (n_mismatch <= 20) {
                        printf("MISMATCH behaviour %ld step %ld op %s(%d,%d,%d,%d,%d,%d,%d): ret %d expected %ld; projection got [", n_beh, s + 1,
                               FN[op.v[0]], op.v[1], op.v[2], op.v[3], op.v[4], op.v[5], op.v[6], op.v[7], ret, eret);
                        for (int g : got)
                            printf("%d ", g);
                        printf("] expected [");
                        for (int g : exp)
                            printf("%d ", g);
                        printf("]\n");
                    }
                }
            }
        }
        end_execution(crashed);
    }
    fclose(f);
    return 0;
}

struct Rng
{
    uint64_t s;
    uint32_t next()
    {
        s = s * 6364136223846793005ULL + 1442695040888963407ULL;
        return (uint32_t)(s >> 33);
    }
    int below(int n) { return n <= 0 ? 0 : (int)(next() % (uint32_t)n); }
};

static void
rand_string(Rng& g, int* m, int* l, int* f, bool name)
{
    static const int lens[] = { 1, 2, 3, 4, 7, 8, 9, 15, 16, 17, 31, 33, 64, 100, 255, 256, 300, 1000 };
    int c = g.below(name ? 14 : 10);
    if (c == 0) {
        *m = 0;
        *l = g.below(2) ? 0 : lens[g.below(18)];
    } else if (c == 1) {
        *m = 3;
        *l = 0;
    } else if (c == 2) {
        *m = 1;
        *l = 1;
    } else if (c == 3) {
        *m = 2;
        *l = lens[g.below(18)];
    } else if (c == 4) {
        *m = 4;
        *l = lens[3 + g.below(15)];
    } else {
        *m = 1;
        *l = lens[1 + g.below(17)];
    }
    *f = 1 + g.below(g.below(4) == 0 ? 90 : 6);
}

static int
cmd_random(int argc, char** argv)
{
    if (argc < 7)
        return 3;
    Rng g = { (uint64_t)atoll(argv[2]) * 2654435761ULL + 12345 };
    long nseq = atol(argv[3]);
    int maxlen = atoi(argv[4]);
    trace_prefix = argv[5];
    chunk_events = atol(argv[6]);
    open_chunk();
    for (long q = 0; q < nseq; ++q) {
        alloc_mode = g.below(2);
        int nobj = 2 + g.below(3);
        alarm(30);
        reset_world(nobj);
        ++n_beh;
        int len = 2 + g.below(maxlen - 1);
        bool crashed = false;
        for (int s = 0; s < len && !crashed; ++s) {
            Op op;
            memset(&op, 0, sizeof op);
            int o = g.below(nobj);
            int c = g.below(20);
            op.v[1] = o;
            if (c < 3) {
                if (owns_something(&P[o])) { // init is for objects that own nothing (anything else is the client leaking)
                    op.v[0] = 8;
                } else {
                    op.v[0] = 1;
                    op.v[2] = g.below(3) == 0 ? 0 : g.below(7);
                    rand_string(g, &op.v[3], &op.v[4], &op.v[5], false);
                    rand_string(g, &op.v[6], &op.v[7], &op.v[8], false);
                }
            } else if (c < 5) {
                op.v[0] = 2 + g.below(2);
                rand_string(g, &op.v[2], &op.v[3], &op.v[4], false);
            } else if (c < 6) {
                op.v[0] = 4;
                rand_string(g, &op.v[2], &op.v[3], &op.v[4], false);
                rand_string(g, &op.v[5], &op.v[6], &op.v[7], false);
            } else if (c < 10) {
                op.v[0] = 5;
                int dn = (int)P[o].acquisition_dimensions.size;
                op.v[2] = g.below(8) == 0 ? g.below(9) - 1 : (dn > 0 ? g.below(dn) : 0);
                rand_string(g, &op.v[3], &op.v[4], &op.v[5], true);
                op.v[6] = g.below(10) == 0 ? 4 + g.below(3) : g.below(4);
                op.v[7] = g.below(1000);
            } else if (c < 11) {
                op.v[0] = 6;
                op.v[2] = g.below(3);
            } else if (c < 16) {
                op.v[0] = 7;
                int s2 = g.below(nobj - 1);
                if (s2 >= o)
                    ++s2;
                op.v[2] = s2;
            } else if (c < 18) {
                op.v[0] = 8;
            } else {
                int fld = 1 + g.below(2);
                const struct String* S = fld == 2 ? &P[o].external_metadata_json : &P[o].uri;
                int s2 = g.below(nobj - 1);
                if (s2 >= o)
                    ++s2;
                const struct String* T = fld == 2 ? &P[s2].external_metadata_json : &P[s2].uri;
                if (S->str && !S->is_ref) {
                    op.v[0] = 6;
                    op.v[2] = 1;
                } else if (g.below(3) == 0 && T->str && !T->is_ref) {
                    // the destination's field refers to the source's own buffer (a shallow struct copy made by the client),
                    // then the source is copied over it: the copy has to stop sharing
                    op.v[0] = 9;
                    op.v[2] = fld;
                    op.v[3] = 9;
                    op.v[4] = s2;
                    ++n_steps;
                    if (do_op(op, 0) == -1000) {
                        crashed = true;
                        break;
                    }
                    memset(&op, 0, sizeof op);
                    op.v[0] = 7;
                    op.v[1] = o;
                    op.v[2] = s2;
                } else {
                    op.v[0] = 9;
                    op.v[2] = fld;
                    rand_string(g, &op.v[3], &op.v[4], &op.v[5], false);
                }
            }
            ++n_steps;
            if (do_op(op, 0) == -1000)
                crashed = true;
        }
        end_execution(crashed);
    }
    return 0;
}

static int
cmd_script(int argc, char** argv)
{
    if (argc < 5)
        return 3;
    FILE* f = fopen(argv[2], "r");
    if (!f)
        return 3;
    trace_prefix = argv[3];
    single_file = true;
    alloc_mode = atoi(argv[4]);
    open_chunk();
    long nobj;
    if (!next_int(f, &nobj) || nobj < 1 || nobj > MAXOBJ)
        return 3;
    alarm(30);
    reset_world((int)nobj);
    ++n_beh;
    bool crashed = false;
    for (;;) {
        Op op;
        long x;
        int i = 0;
        for (; i < 11; ++i) {
            if (!next_int(f, &x))
                break;
            op.v[i] = (int)x;
        }
        if (i < 11)
            break;
        ++n_steps;
        if (do_op(op, 0) == -1000) {
            crashed = true;
            break;
        }
    }
    end_execution(crashed);
    fclose(f);
    return 0;
}

int
main(int argc, char** argv)
{
    if (argc < 2) {
        fprintf(stderr, "usage: props_seq replay|random|script ...\n");
        return 3;
    }
    intern("");
    intern("ab");
    intern("abcdefgh");
    intern("xy");
    install_handlers();
    int rc = 3;
    std::string cmd = argv[1];
    if (cmd == "replay")
        rc = cmd_replay(argc, argv);
    else if (cmd == "random")
        rc = cmd_random(argc, argv);
    else if (cmd == "script")
        rc = cmd_script(argc, argv);
    alarm(0);
    if (trace_fd >= 0) {
        ev_flush();
        close(trace_fd);
    }
    if (rc != 0) {
        fprintf(stderr, "props_seq: bad arguments or input\n");
        return rc;
    }
    printf("{\"behaviours\":%ld,\"steps\":%ld,\"compared\":%ld,\"mismatches\":%ld,\"events\":%ld,\"alloc_events\":%ld,\"chunks\":%d,"
           "\"crashes\":%ld,\"san_reports\":%ld,\"foreign_frees\":%ld,\"asan\":%d,\"error_logs\":%ld}\n",
           n_beh, n_steps, n_compared, n_mismatch, n_events, n_alloc_ev, chunk_no, n_crash, n_san, n_foreign, HAVE_ASAN, n_log_err);
    return 0;
}
