/* A minimal well-behaved driver with a synthetic device table, staged under the name of one of the optional drivers
   (which do not exist offline) so that device selection is also exercised over an enumeration that spans two drivers and
   contains names the common driver does not have: upper-case letters, names that differ from others only by case, names
   containing regex metacharacters, a camera named like a storage device, a device of a third kind.

   It implements exactly the driver interface of device/kit/driver.h; cameras and storage devices are inert objects whose
   interface functions exist (the HAL refuses devices with missing functions) and do nothing. */
#include "device/kit/driver.h"
#include "device/kit/camera.h"
#include "device/kit/storage.h"

#include <stdlib.h>
#include <string.h>

static const struct
{
    enum DeviceKind kind;
    const char* name;
} table[] = {
    { DeviceKind_Camera, "Zyla 4.2 (sim)" },    /* upper case, '.', parentheses */
    { DeviceKind_Camera, "zyla 4.2 (SIM)" },    /* same name up to case: never selectable by name, the one above wins */
    { DeviceKind_Camera, "raw" },               /* a camera named like a storage device */
    { DeviceKind_Storage, "RAW" },              /* same as the common driver's "raw" up to case, enumerated later */
    { DeviceKind_Storage, "Tiff-JSON.v2" },     /* extends "tiff-json" */
    { DeviceKind_Storage, "a+b" },
    { DeviceKind_Storage, "tiff" },             /* exact duplicate of a common-driver name */
    { DeviceKind_StageAxis, "stage: x" },       /* a third kind (cannot be opened through camera_open / storage_open) */
    { DeviceKind_Camera, "[tr]*" },             /* a name that is itself a pattern */
};
#define NDEV (sizeof(table) / sizeof(table[0]))

static uint32_t
count(struct Driver* self)
{
    (void)self;
    return NDEV;
}

static enum DeviceStatusCode
describe(const struct Driver* self, struct DeviceIdentifier* id, uint64_t i)
{
    (void)self;
    if (i >= NDEV)
        return Device_Err;
    memset(id, 0, sizeof(*id));
    id->device_id = (uint8_t)i;
    id->kind = table[i].kind;
    strncpy(id->name, table[i].name, sizeof(id->name) - 1);
    return Device_Ok;
}

static enum DeviceStatusCode cam_set(struct Camera* c, struct CameraProperties* p) { (void)c; (void)p; return Device_Ok; }
static enum DeviceStatusCode cam_get(const struct Camera* c, struct CameraProperties* p) { (void)c; (void)p; return Device_Ok; }
static enum DeviceStatusCode cam_meta(const struct Camera* c, struct CameraPropertyMetadata* m) { (void)c; (void)m; return Device_Ok; }
static enum DeviceStatusCode cam_shape(const struct Camera* c, struct ImageShape* s) { (void)c; (void)s; return Device_Ok; }
static enum DeviceStatusCode cam_start(struct Camera* c) { (void)c; return Device_Ok; }
static enum DeviceStatusCode cam_stop(struct Camera* c) { (void)c; return Device_Ok; }
static enum DeviceStatusCode cam_trig(struct Camera* c) { (void)c; return Device_Ok; }
static enum DeviceStatusCode cam_frame(struct Camera* c, void* im, size_t* n, struct ImageInfo* i) { (void)c; (void)im; (void)i; if (n) *n = 0; return Device_Ok; }

static enum DeviceState sto_set(struct Storage* s, const struct StorageProperties* p) { (void)s; (void)p; return DeviceState_Armed; }
static void sto_get(const struct Storage* s, struct StorageProperties* p) { (void)s; (void)p; }
static void sto_meta(const struct Storage* s, struct StoragePropertyMetadata* m) { (void)s; (void)m; }
static enum DeviceState sto_start(struct Storage* s) { (void)s; return DeviceState_Running; }
static enum DeviceState sto_append(struct Storage* s, const struct VideoFrame* f, size_t* n) { (void)s; (void)f; (void)n; return DeviceState_Running; }
static enum DeviceState sto_stop(struct Storage* s) { (void)s; return DeviceState_Armed; }
static void sto_destroy(struct Storage* s) { free(s); }
static void sto_reserve(struct Storage* s, const struct ImageShape* sh) { (void)s; (void)sh; }

static enum DeviceStatusCode
open_(struct Driver* self, uint64_t i, struct Device** out)
{
    (void)self;
    if (i >= NDEV || !out)
        return Device_Err;
    if (table[i].kind == DeviceKind_Camera) {
        struct Camera* c = (struct Camera*)calloc(1, sizeof(*c));
        if (!c)
            return Device_Err;
        c->state = DeviceState_AwaitingConfiguration;
        c->set = cam_set;
        c->get = cam_get;
        c->get_meta = cam_meta;
        c->get_shape = cam_shape;
        c->start = cam_start;
        c->stop = cam_stop;
        c->execute_trigger = cam_trig;
        c->get_frame = cam_frame;
        *out = &c->device;
        return Device_Ok;
    }
    if (table[i].kind == DeviceKind_Storage) {
        struct Storage* s = (struct Storage*)calloc(1, sizeof(*s));
        if (!s)
            return Device_Err;
        s->state = DeviceState_AwaitingConfiguration;
        s->set = sto_set;
        s->get = sto_get;
        s->get_meta = sto_meta;
        s->start = sto_start;
        s->append = sto_append;
        s->stop = sto_stop;
        s->destroy = sto_destroy;
        s->reserve_image_shape = sto_reserve;
        *out = &s->device;
        return Device_Ok;
    }
    return Device_Err;
}

static enum DeviceStatusCode
close_(struct Driver* self, struct Device* dev)
{
    (void)self;
    if (!dev)
        return Device_Err;
    /* `device` is the first member of both struct Camera and struct Storage */
    free(dev);
    return Device_Ok;
}

static enum DeviceStatusCode
shutdown_(struct Driver* self)
{
    free(self);
    return Device_Ok;
}

struct Driver*
acquire_driver_init_v0(void (*reporter)(int, const char*, int, const char*, const char*))
{
    (void)reporter;
    struct Driver* d = (struct Driver*)calloc(1, sizeof(*d));
    if (!d)
        return 0;
    d->device_count = count;
    d->describe = describe;
    d->open = open_;
    d->close = close_;
    d->shutdown = shutdown_;
    return d;
}
