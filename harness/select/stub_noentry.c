/* A well-formed shared library that is NOT a driver: it has no acquire_driver_init_v0 entry point.
   Staged under the name of an optional driver to exercise loader.c's failure cleanup (dlopen ok, dlsym fails). */
int acquire_verif_stub_noentry_marker = 1;
