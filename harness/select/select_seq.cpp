// Sequential conformance harness for device enumeration / selection / driver loading (property C12).
//
// Links the REAL device.manager.cpp, loader.c, driver.c, camera.c, storage.c (HAL) from the tree under test; the real
// common driver is a shared library built by the check from the same tree and placed NEXT TO THIS EXECUTABLE
// (loader.c resolves lib<name>.so relative to the calling module), or deliberately left out (absent-driver staging).
//
//   select_seq enum
//        prints {"init":st,"count":n,"devs":[{"status","kind","name":[bytes],"driver_id","device_id"}...]} as seen through
//        the real device_manager_count / device_manager_get.
//   select_seq run <cases> <trace.ndjson> <watchdog_ms>
//        supervisor: forks a worker that initialises the device manager, writes a Reset event carrying the enumeration
//        table and executes the cases, one ndjson event per observation.  A worker killed by a signal becomes a
//        Crash{signal} event attributed to the case in flight, an exception that escapes a C API function becomes an
//        Exception event, a case that exceeds the watchdog becomes a Slow event (not a violation); the supervisor then
//        starts a new worker at the next case.
//
// case line:  <id> <op> <kind|index> <len> <hex buffer|-> <ast json|-> <open 0|1>
//   op S: device_manager_select(kind, buffer, len)   (buffer placed so that it ends at an inaccessible page)
//      N: device_manager_select(kind, NULL, len)
//      F: device_manager_select_first(kind)           D: device_manager_select_default(kind)
//      G: device_manager_get(index)                   O: open + close the identifier enumerated at index
//      C: device_manager_count
#include "device/hal/device.manager.h"
#include "device/hal/camera.h"
#include "device/hal/storage.h"
#include "device/kit/camera.h"
#include "device/kit/storage.h"
#include "logger.h"

#include <cerrno>
#include <climits>
#include <csignal>
#include <cstdint>
#include <cstdio>
#include <cstdlib>
#include <cstring>
#include <exception>
#include <regex>
#include <string>
#include <vector>

#include <fcntl.h>
#include <poll.h>
#include <sys/mman.h>
#include <sys/types.h>
#include <sys/wait.h>
#include <unistd.h>

static long n_log = 0, n_log_err = 0;
static void
reporter(int is_error, const char*, int, const char*, const char*)
{
    ++n_log;
    n_log_err += is_error ? 1 : 0;
}

struct Entry
{
    int status;
    DeviceIdentifier id;
};

static std::string
bytes_json(const unsigned char* p, size_t n)
{
    std::string s = "[";
    char b[8];
    for (size_t i = 0; i < n; ++i) {
        snprintf(b, sizeof(b), i ? ",%u" : "%u", (unsigned)p[i]);
        s += b;
    }
    return s + "]";
}

static std::vector<Entry>
enumerate(DeviceManager* dm)
{
    std::vector<Entry> t;
    uint32_t n = device_manager_count(dm);
    for (uint32_t i = 0; i < n; ++i) {
        Entry e;
        memset(&e, 0, sizeof(e));
        e.status = (int)device_manager_get(&e.id, dm, i);
        t.push_back(e);
    }
    return t;
}

static size_t
namelen(const DeviceIdentifier& id)
{
    return strnlen(id.name, sizeof(id.name));
}

static std::string
table_json(const std::vector<Entry>& t, bool full)
{
    std::string s = "[";
    char b[128];
    for (size_t i = 0; i < t.size(); ++i) {
        if (i)
            s += ",";
        snprintf(b, sizeof(b), "{\"ok\":%d,\"kind\":%d,\"name\":", t[i].status == Device_Ok ? 1 : 0, (int)t[i].id.kind);
        s += b;
        s += bytes_json((const unsigned char*)t[i].id.name, namelen(t[i].id));
        if (full) {
            snprintf(b,
                     sizeof(b),
                     ",\"status\":%d,\"driver_id\":%d,\"device_id\":%d",
                     t[i].status,
                     (int)t[i].id.driver_id,
                     (int)t[i].id.device_id);
            s += b;
        }
        s += "}";
    }
    return s + "]";
}

static bool
same_ident(const DeviceIdentifier& a, const DeviceIdentifier& b)
{
    return a.driver_id == b.driver_id && a.device_id == b.device_id && a.kind == b.kind &&
           namelen(a) == namelen(b) && memcmp(a.name, b.name, namelen(a)) == 0;
}

static int
index_of(const std::vector<Entry>& t, const DeviceIdentifier& id)
{
    for (size_t i = 0; i < t.size(); ++i)
        if (t[i].status == Device_Ok && same_ident(t[i].id, id))
            return (int)i;
    return -1;
}

// ------------------------------------------------------------------------------------------------------------------
// cases

struct Case
{
    long id;
    char op;
    long long kind; // kind, or index for G / O
    long len;
    std::vector<unsigned char> buf;
    std::string ast; // "-" or json
    int open;
};

static int
hexv(int c)
{
    if (c >= '0' && c <= '9')
        return c - '0';
    if (c >= 'a' && c <= 'f')
        return c - 'a' + 10;
    if (c >= 'A' && c <= 'F')
        return c - 'A' + 10;
    return -1;
}

static bool
load_cases(const char* path, std::vector<Case>& out)
{
    FILE* f = fopen(path, "r");
    if (!f)
        return false;
    char* line = 0;
    size_t cap = 0;
    while (getline(&line, &cap, f) > 0) {
        std::vector<std::string> tok;
        char* save = 0;
        for (char* p = strtok_r(line, " \t\r\n", &save); p; p = strtok_r(0, " \t\r\n", &save))
            tok.push_back(p);
        if (tok.empty() || tok[0][0] == '#')
            continue;
        if (tok.size() != 7) {
            fprintf(stderr, "bad case line (%zu fields)\n", tok.size());
            fclose(f);
            return false;
        }
        Case c;
        c.id = atol(tok[0].c_str());
        c.op = tok[1][0];
        c.kind = atoll(tok[2].c_str());
        c.len = atol(tok[3].c_str());
        if (tok[4] != "-")
            for (size_t i = 0; i + 1 < tok[4].size(); i += 2)
                c.buf.push_back((unsigned char)(hexv(tok[4][i]) * 16 + hexv(tok[4][i + 1])));
        c.ast = tok[5];
        c.open = atoi(tok[6].c_str());
        out.push_back(c);
    }
    free(line);
    fclose(f);
    return true;
}

// a buffer whose last byte is the last byte of an accessible page; the next page is PROT_NONE, so a read past the
// buffer (a length that is not honoured, a missing terminator that is relied upon) is a SIGSEGV, i.e. a Crash event.
struct Guarded
{
    unsigned char* base;
    size_t span;
    size_t page;
    Guarded()
    {
        page = (size_t)sysconf(_SC_PAGESIZE);
        span = 3 * page;
        base = (unsigned char*)mmap(0, span, PROT_READ | PROT_WRITE, MAP_PRIVATE | MAP_ANONYMOUS, -1, 0);
        if (base == MAP_FAILED || mprotect(base + 2 * page, page, PROT_NONE) != 0) {
            perror("guard page");
            _exit(97);
        }
    }
    char* place(const std::vector<unsigned char>& b)
    {
        size_t n = b.size() > 2 * page ? 2 * page : b.size();
        unsigned char* p = base + 2 * page - n;
        memset(base, 0xAA, 2 * page);
        memcpy(p, b.data(), n);
        return (char*)p;
    }
};

// ------------------------------------------------------------------------------------------------------------------
// worker

static int trace_fd = -1;
static void
emit(const std::string& line)
{
    std::string l = line + "\n";
    const char* p = l.data();
    size_t n = l.size();
    while (n) {
        ssize_t w = write(trace_fd, p, n);
        if (w < 0) {
            if (errno == EINTR)
                continue;
            _exit(98);
        }
        p += w;
        n -= (size_t)w;
    }
}

static void
emit_open(DeviceManager* dm, const std::vector<Entry>& tab, long id, long long index)
{
    char b[256];
    if (index < 0 || (size_t)index >= tab.size() || tab[(size_t)index].status != Device_Ok) {
        snprintf(b, sizeof(b), "{\"e\":\"Open\",\"id\":%ld,\"index\":%lld,\"status\":1,\"kind_ok\":0,\"name_ok\":0,\"skipped\":1}", id, index);
        emit(b);
        return;
    }
    const DeviceIdentifier& want = tab[(size_t)index].id;
    int status = 1, kind_ok = 0, name_ok = 0, skipped = 0;
    if (want.kind == DeviceKind_Camera) {
        struct Camera* c = camera_open(dm, &want);
        if (c) {
            status = 0;
            kind_ok = c->device.identifier.kind == want.kind;
            name_ok = namelen(c->device.identifier) == namelen(want) &&
                      memcmp(c->device.identifier.name, want.name, namelen(want)) == 0;
            camera_close(c);
        }
    } else if (want.kind == DeviceKind_Storage) {
        struct Storage* s = storage_open(dm, &want);
        if (s) {
            status = 0;
            kind_ok = s->device.identifier.kind == want.kind;
            name_ok = namelen(s->device.identifier) == namelen(want) &&
                      memcmp(s->device.identifier.name, want.name, namelen(want)) == 0;
            storage_close(s);
        }
    } else {
        skipped = 1; // no open function for this kind in the HAL under test
    }
    snprintf(b,
             sizeof(b),
             "{\"e\":\"Open\",\"id\":%ld,\"index\":%lld,\"status\":%d,\"kind_ok\":%d,\"name_ok\":%d,\"skipped\":%d}",
             id,
             index,
             status,
             kind_ok,
             name_ok,
             skipped);
    emit(b);
}

static void
run_case(DeviceManager* dm, const std::vector<Entry>& tab, Guarded& g, const Case& c)
{
    char b[512];
    switch (c.op) {
        case 'S':
        case 'N':
        case 'F':
        case 'D': {
            DeviceIdentifier out;
            memset(&out, 0x5A, sizeof(out));
            int st = 1;
            const char* name = c.op == 'S' ? g.place(c.buf) : 0;
            enum DeviceKind kind = (enum DeviceKind)(int)c.kind;
            if (c.op == 'S' || c.op == 'N')
                st = (int)device_manager_select(dm, kind, name, (size_t)c.len, &out);
            else if (c.op == 'F')
                st = (int)device_manager_select_first(dm, kind, &out);
            else
                st = (int)device_manager_select_default(dm, kind, &out);
            int idx = st == Device_Ok ? index_of(tab, out) : -1;
            int enumerated = st == Device_Ok && idx >= 0;
            // is the pattern (the bytes before the first NUL within len) one the regex library itself refuses to compile?
            // (an independent compilation with the flags the device manager documents; such a pattern must give an error)
            int malformed = 0;
            if (c.op == 'S' && name && c.len > 0 && (size_t)c.len <= c.buf.size()) {
                std::string pat((const char*)c.buf.data(), (size_t)c.len);
                pat = pat.substr(0, pat.find('\0'));
                if (!pat.empty()) {
                    try {
                        std::regex probe(pat, std::regex::ECMAScript | std::regex::icase);
                    } catch (...) {
                        malformed = 1;
                    }
                }
            }
            std::string l = "{\"e\":\"Select\",";
            l += malformed ? "\"bad\":1," : "\"bad\":0,";
            snprintf(b, sizeof(b), "\"id\":%ld,\"op\":\"%c\",\"kind\":%d,\"len\":%ld,\"status\":%d,\"index\":%d,\"g\":%d,", c.id, c.op, (int)c.kind, c.len, st, idx, c.ast != "-" ? 1 : 0);
            l += b;
            l += "\"pat\":" + bytes_json(c.buf.data(), c.buf.size()) + ",\"ast\":" + (c.ast != "-" ? c.ast : std::string("[]")) + "}";
            emit(l);
            if (c.open && enumerated)
                emit_open(dm, tab, c.id, idx);
            break;
        }
        case 'G': {
            DeviceIdentifier out;
            memset(&out, 0x5A, sizeof(out));
            int st = (int)device_manager_get(&out, dm, (uint32_t)c.kind);
            int same = 0;
            if (st == Device_Ok && c.kind >= 0 && (size_t)c.kind < tab.size())
                same = same_ident(tab[(size_t)c.kind].id, out);
            snprintf(b, sizeof(b), "{\"e\":\"Get\",\"id\":%ld,\"index\":%lld,\"status\":%d,\"same\":%d}", c.id, (long long)((uint32_t)c.kind > 0x7fffffffu ? 0x7fffffffu : (uint32_t)c.kind), st, same);
            emit(b);
            break;
        }
        case 'O':
            emit_open(dm, tab, c.id, c.kind);
            break;
        case 'C': {
            snprintf(b, sizeof(b), "{\"e\":\"Count\",\"id\":%ld,\"n\":%u}", c.id, (unsigned)device_manager_count(dm));
            emit(b);
            break;
        }
        default:
            snprintf(b, sizeof(b), "{\"e\":\"BadCase\",\"id\":%ld}", c.id);
            emit(b);
    }
}

static int
worker(const std::vector<Case>& cases, size_t start, int progress_fd)
{
    logger_set_reporter(reporter);
    DeviceManager dm = { 0 };
    int st = (int)device_manager_init(&dm, reporter);
    std::vector<Entry> tab;
    if (st == Device_Ok)
        tab = enumerate(&dm);
    {
        char b[96];
        snprintf(b, sizeof(b), "{\"e\":\"Reset\",\"init\":%d,\"first\":%zu,\"devs\":", st, start);
        emit(std::string(b) + table_json(tab, false) + "}");
    }
    Guarded g;
    for (size_t i = start; i < cases.size(); ++i) {
        uint32_t msg = (uint32_t)i;
        if (write(progress_fd, &msg, sizeof(msg)) != (ssize_t)sizeof(msg))
            _exit(96);
        try {
            run_case(&dm, tab, g, cases[i]);
        } catch (...) {
            // an exception crossed a C API boundary
            char b[96];
            snprintf(b, sizeof(b), "{\"e\":\"Exception\",\"id\":%ld}", cases[i].id);
            emit(b);
        }
    }
    uint32_t fin = UINT32_MAX;
    if (write(progress_fd, &fin, sizeof(fin)) != (ssize_t)sizeof(fin))
        _exit(96);
    int dst = (int)device_manager_destroy(&dm);
    {
        char b[128];
        snprintf(b, sizeof(b), "{\"e\":\"End\",\"destroy\":%d,\"logs\":%ld,\"log_errors\":%ld}", dst, n_log, n_log_err);
        emit(b);
    }
    return 0;
}

// ------------------------------------------------------------------------------------------------------------------
// supervisor

static int
supervise(const char* cases_path, const char* trace_path, int watchdog_ms)
{
    std::vector<Case> cases;
    if (!load_cases(cases_path, cases)) {
        fprintf(stderr, "cannot read cases %s\n", cases_path);
        return 2;
    }
    trace_fd = open(trace_path, O_WRONLY | O_CREAT | O_TRUNC | O_APPEND, 0644);
    if (trace_fd < 0) {
        perror(trace_path);
        return 2;
    }
    size_t next = 0;
    long crashes = 0, slow = 0, workers = 0;
    bool finished = false;
    while (!finished) {
        int pfd[2];
        if (pipe(pfd) != 0) {
            perror("pipe");
            return 2;
        }
        pid_t pid = fork();
        if (pid < 0) {
            perror("fork");
            return 2;
        }
        if (pid == 0) {
            close(pfd[0]);
            _exit(worker(cases, next, pfd[1]));
        }
        ++workers;
        close(pfd[1]);
        long inflight = -1; // -1: still initialising
        bool done = false, timed_out = false;
        for (;;) {
            struct pollfd p = { pfd[0], POLLIN, 0 };
            int r = poll(&p, 1, inflight < 0 ? (10 * watchdog_ms > 60000 ? 10 * watchdog_ms : 60000) : watchdog_ms);
            if (r < 0 && errno == EINTR)
                continue;
            if (r == 0) {
                timed_out = true;
                kill(pid, SIGKILL);
                break;
            }
            uint32_t msg;
            ssize_t n = read(pfd[0], &msg, sizeof(msg));
            if (n == (ssize_t)sizeof(msg)) {
                if (msg == UINT32_MAX) {
                    done = true;
                    inflight = -2;
                } else
                    inflight = (long)msg;
                continue;
            }
            break; // EOF: the worker is gone
        }
        close(pfd[0]);
        int status = 0;
        while (waitpid(pid, &status, 0) < 0 && errno == EINTR) {
        }
        char b[160];
        if (timed_out) {
            ++slow;
            snprintf(b, sizeof(b), "{\"e\":\"Slow\",\"id\":%ld,\"ms\":%d,\"init\":%d}", inflight >= 0 ? cases[(size_t)inflight].id : -1L, watchdog_ms, inflight < 0 ? 1 : 0);
            emit(b);
            if (inflight < 0) // the device manager does not come up (or go down) in time: give up, the check reports it as broken
                break;
            next = (size_t)inflight + 1;
        } else if (WIFSIGNALED(status) || (WIFEXITED(status) && WEXITSTATUS(status) != 0) || !done) {
            ++crashes;
            const char* phase = inflight == -1 ? "init" : inflight == -2 ? "shutdown" : "case";
            snprintf(b,
                     sizeof(b),
                     "{\"e\":\"Crash\",\"id\":%ld,\"signal\":%d,\"exit\":%d,\"phase\":\"%s\"}",
                     inflight >= 0 ? cases[(size_t)inflight].id : -1L,
                     WIFSIGNALED(status) ? WTERMSIG(status) : 0,
                     WIFEXITED(status) ? WEXITSTATUS(status) : -1,
                     phase);
            emit(b);
            if (inflight < 0)
                break; // crash while initialising or shutting down: do not loop
            next = (size_t)inflight + 1;
        } else {
            finished = true;
        }
        if (next >= cases.size() && !finished) {
            // the last case died; nothing left to run
            finished = true;
        }
    }
    close(trace_fd);
    printf("{\"cases\":%zu,\"workers\":%ld,\"crashes\":%ld,\"slow\":%ld}\n", cases.size(), workers, crashes, slow);
    return 0;
}

int
main(int argc, char** argv)
{
    if (argc >= 2 && !strcmp(argv[1], "enum")) {
        logger_set_reporter(reporter);
        DeviceManager dm = { 0 };
        int st = (int)device_manager_init(&dm, reporter);
        std::vector<Entry> tab;
        if (st == Device_Ok)
            tab = enumerate(&dm);
        printf("{\"init\":%d,\"count\":%u,\"devs\":%s}\n", st, st == Device_Ok ? (unsigned)device_manager_count(&dm) : 0u, table_json(tab, true).c_str());
        if (st == Device_Ok)
            device_manager_destroy(&dm);
        return 0;
    }
    if (argc >= 5 && !strcmp(argv[1], "run"))
        return supervise(argv[2], argv[3], atoi(argv[4]));
    fprintf(stderr, "usage: select_seq enum | run <cases> <trace> <watchdog_ms>\n");
    return 2;
}
