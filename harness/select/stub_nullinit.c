/* A driver library whose initialiser fails (returns NULL).  Staged under the name of an optional driver to
   exercise loader.c's failure cleanup (dlopen ok, dlsym ok, init fails). */
struct Driver;
struct Driver*
acquire_driver_init_v0(void (*reporter)(int, const char*, int, const char*, const char*))
{
    (void)reporter;
    return 0;
}
