// files_seq: drives the REAL storage devices (raw / tiff / tiff-json / trash) of the common driver through the REAL
// HAL (storage_open / set / start / append / stop / close) along scripted histories, with a link-time seam under
// platform.c's libc calls (open, close, pwrite, flock, unlink, access):
//   * virtual descriptor table (lowest free number >= 3), so that descriptor numbers are deterministic and a stale
//     number really is re-issued to the next opener (a write through it lands in the other device's file);
//   * short-write scripts (per HAL call) and fault injection (fail the k-th fallible OS call, transient or persistent);
//   * every OS call is logged with the acting device instance; payload bytes are reduced to 16-bit cell hashes.
// Every case runs in a forked child with a small stack limit (setrlimit) and a watchdog (alarm), so that unbounded
// recursion, crashes and hangs become `Exit` events instead of killing the harness.
//
// usage: files_seq <cases-file> <trace.ndjson> <workdir>
//
// cases-file (one token-separated directive per line):
//   case <id> | unit <bytes> | stack <kb> | timeout <s> | fault <k> <t|p> | dev <slot> <raw|tiff|tiff-json|trash>
//   path <pid> <name-relative-to-workdir> | meta <mid> <json text to end of line>
//   op open <slot> | op set <slot> <pid> <plain|file> <mid|-> <sx> <sy> | op start <slot> | op stop <slot> | op close <slot>
//   op append <slot> <w,h,type,pad,id,hw,trt,thw> ...          (any op may end with:  sw <F|H|Z|S<n>|h<u>>,...)
//   end
#include "device/hal/storage.h"
#include "device/hal/device.manager.h"
#include "device/kit/storage.h"
#include "device/kit/driver.h"
#include "device/props/storage.h"
#include "device/props/components.h"
#include "identifiers.h"
#include "logger.h"

#include <cerrno>
#include <csignal>
#include <cstdarg>
#include <cstdint>
#include <cstdio>
#include <cstdlib>
#include <cstring>
#include <string>
#include <vector>
#include <map>
#include <fcntl.h>
#include <unistd.h>
#include <sys/file.h>
#include <sys/resource.h>
#include <sys/stat.h>
#include <sys/wait.h>
#include <ucontext.h>

extern "C"
{
    struct Driver* acquire_driver_init_v0(acquire_reporter_t reporter);
    int __real_open(const char*, int, ...);
    int __real_close(int);
    ssize_t __real_pwrite(int, const void*, size_t, off_t);
    int __real_flock(int, int);
    int __real_unlink(const char*);
    int __real_access(const char*, int);
}

// ------------------------------------------------------------------------------------------------ trace output
static int g_trace = -1;
static void
emit(const char* fmt, ...)
{
    static char buf[1 << 16];
    va_list ap;
    va_start(ap, fmt);
    int n = vsnprintf(buf, sizeof(buf) - 2, fmt, ap);
    va_end(ap);
    if (n < 0)
        return;
    if (n > (int)sizeof(buf) - 2)
        n = sizeof(buf) - 2;
    buf[n++] = '\n';
    if (write(g_trace, buf, n) != n) {
        _exit(97);
    }
}

static unsigned
cell_hash(const uint8_t* p, size_t n)
{
    uint32_t h = 2166136261u;
    for (size_t i = 0; i < n; ++i) {
        h ^= p[i];
        h *= 16777619u;
    }
    h ^= (uint32_t)n * 40503u;
    return 1 + ((h ^ (h >> 16)) & 0xffff) % 65521; // 1..65521
}

static std::string
cells_json(const uint8_t* p, size_t n, size_t unit)
{
    std::string s = "[";
    char t[16];
    for (size_t o = 0; o < n; o += unit) {
        size_t k = n - o < unit ? n - o : unit;
        snprintf(t, sizeof t, "%s%u", o ? "," : "", cell_hash(p + o, k));
        s += t;
    }
    return s + "]";
}

// ------------------------------------------------------------------------------------------------ the OS seam
enum { VFD_MIN = 3, VFD_MAX = 63 };
static int g_vfd[VFD_MAX + 1]; // virtual -> real descriptor, -1 = free
static int g_cur = -1;         // acting device slot, -1 = harness itself
static size_t g_unit = 0;      // cell size for payload hashing, 0 = no payload in the trace
static bool g_log_data = false;
static long g_fault_at = 0;    // index (1-based) of the fallible OS call that fails; 0 = none
static bool g_fault_persistent = false;
static long g_ncall = 0;       // fallible OS calls so far in this case (open, flock, pwrite)
static std::vector<std::string> g_sw; // short-write script of the current HAL call
static size_t g_sw_pos = 0;
static int g_os_events = 0;    // OS events logged during the current HAL call
static const int OS_EVENT_CAP = 48;
static std::map<std::string, int> g_paths; // registered path -> id
static std::vector<std::string> g_unknown;

static int
path_id(const char* p)
{
    auto it = g_paths.find(p);
    if (it != g_paths.end())
        return it->second;
    for (size_t i = 0; i < g_unknown.size(); ++i)
        if (g_unknown[i] == p)
            return 900 + (int)i;
    g_unknown.push_back(p);
    return 900 + (int)g_unknown.size() - 1;
}

static bool
quiet()
{
    if (g_os_events == OS_EVENT_CAP) {
        ++g_os_events;
        emit("{\"e\":\"Suppressed\",\"d\":%d}", g_cur);
    }
    return g_os_events++ >= OS_EVENT_CAP;
}

static bool
inject()
{
    ++g_ncall;
    return g_fault_at > 0 && (g_ncall == g_fault_at || (g_fault_persistent && g_ncall >= g_fault_at));
}

static bool
mapped(int vfd)
{
    return vfd >= VFD_MIN && vfd <= VFD_MAX && g_vfd[vfd] >= 0;
}

extern "C" int
__wrap_open(const char* path, int flags, ...)
{
    mode_t mode = 0;
    if (flags & O_CREAT) {
        va_list ap;
        va_start(ap, flags);
        mode = (mode_t)va_arg(ap, int);
        va_end(ap);
    }
    if (g_cur < 0)
        return __real_open(path, flags, mode);
    const int pid = path_id(path);
    if (inject()) {
        if (!quiet())
            emit("{\"e\":\"Open\",\"d\":%d,\"path\":%d,\"r\":-1,\"inj\":1,\"k\":%ld}", g_cur, pid, g_ncall);
        errno = EACCES;
        return -1;
    }
    int rfd = __real_open(path, flags, mode);
    int e = errno;
    int vfd = -1;
    if (rfd >= 0) {
        for (int v = VFD_MIN; v <= VFD_MAX; ++v)
            if (g_vfd[v] < 0) {
                vfd = v;
                break;
            }
        if (vfd < 0) {
            __real_close(rfd);
            e = EMFILE;
        } else
            g_vfd[vfd] = rfd;
    }
    if (!quiet())
        emit("{\"e\":\"Open\",\"d\":%d,\"path\":%d,\"r\":%d,\"inj\":0,\"k\":%ld}", g_cur, pid, vfd, g_ncall);
    errno = e;
    return vfd;
}

extern "C" int
__wrap_close(int vfd)
{
    if (g_cur < 0)
        return __real_close(vfd);
    int r, e = 0;
    if (mapped(vfd)) {
        r = __real_close(g_vfd[vfd]);
        e = errno;
        g_vfd[vfd] = -1;
    } else if (vfd >= 0 && vfd < VFD_MIN) {
        r = 0; // the process' stdin/stdout/stderr: the OS would close it; the harness only records the call
    } else {
        r = -1;
        e = EBADF;
    }
    if (!quiet())
        emit("{\"e\":\"Close\",\"d\":%d,\"fd\":%d,\"r\":%d}", g_cur, vfd, r);
    errno = e;
    return r;
}

extern "C" int
__wrap_flock(int vfd, int op)
{
    if (g_cur < 0)
        return __real_flock(vfd, op);
    int r, e = 0, inj = 0;
    if (inject()) {
        r = -1;
        e = EWOULDBLOCK;
        inj = 1;
    } else if (mapped(vfd)) {
        r = __real_flock(g_vfd[vfd], op);
        e = errno;
    } else {
        r = -1;
        e = EBADF;
    }
    if (!quiet())
        emit("{\"e\":\"Flock\",\"d\":%d,\"fd\":%d,\"r\":%d,\"inj\":%d,\"k\":%ld}", g_cur, vfd, r, inj, g_ncall);
    errno = e;
    return r;
}

static bool
all_zero(const uint8_t* p, size_t n)
{
    return n == 0 || (p[0] == 0 && memcmp(p, p + 1, n - 1) == 0);
}

extern "C" ssize_t
__wrap_pwrite(int vfd, const void* buf, size_t n, off_t off)
{
    if (g_cur < 0)
        return __real_pwrite(vfd, buf, n, off);
    ssize_t r;
    int e = 0, inj = 0;
    if (inject()) {
        r = -1;
        e = EIO;
        inj = 1;
    } else {
        size_t m = n;
        if (g_sw_pos < g_sw.size()) {
            const std::string& t = g_sw[g_sw_pos++];
            if (t == "H")
                m = n > 1 ? (n + 1) / 2 : n;
            else if (t == "Z")
                m = 0;
            else if (t[0] == 'S') {
                size_t k = strtoul(t.c_str() + 1, 0, 10);
                m = k < n ? k : n;
            } else if (t[0] == 'h') { // half of the cells, rounded up, for a cell size of u bytes
                size_t u = strtoul(t.c_str() + 1, 0, 10);
                size_t c = u ? n / u : 0;
                m = (u && c > 1 && n % u == 0) ? ((c + 1) / 2) * u : n;
            }
        }
        if (!mapped(vfd)) {
            r = -1;
            e = EBADF;
        } else if (m == 0) {
            r = 0;
        } else if (m >= (1u << 20) && all_zero((const uint8_t*)buf, m)) {
            // a large block of zero bytes (the multi-GiB frames of the large-file case): same file contents without the
            // disk traffic - extend the file if needed and punch a hole over the range (a hole reads back as zeros)
            struct stat sb;
            if (fstat(g_vfd[vfd], &sb) == 0 && (sb.st_size >= off + (off_t)m || ftruncate(g_vfd[vfd], off + (off_t)m) == 0) &&
                fallocate(g_vfd[vfd], FALLOC_FL_PUNCH_HOLE | FALLOC_FL_KEEP_SIZE, off, (off_t)m) == 0)
                r = (ssize_t)m;
            else
                r = __real_pwrite(g_vfd[vfd], buf, m, off);
            e = errno;
        } else {
            r = __real_pwrite(g_vfd[vfd], buf, m, off);
            e = errno;
        }
    }
    if (!quiet()) {
        if (g_log_data && g_unit && r > 0) {
            if (off % (off_t)g_unit == 0 && (size_t)r % g_unit == 0 && n % g_unit == 0) {
                std::string c = cells_json((const uint8_t*)buf, (size_t)r, g_unit);
                emit("{\"e\":\"Pwrite\",\"d\":%d,\"fd\":%d,\"off\":%ld,\"req\":%zu,\"r\":%zd,\"inj\":%d,\"k\":%ld,\"cells\":%s}",
                     g_cur, vfd, (long)off, n, r, inj, g_ncall, c.c_str());
            } else
                emit("{\"e\":\"Pwrite\",\"d\":%d,\"fd\":%d,\"off\":%ld,\"req\":%zu,\"r\":%zd,\"inj\":%d,\"k\":%ld,\"mis\":1}",
                     g_cur, vfd, (long)off, n, r, inj, g_ncall);
        } else
            emit("{\"e\":\"Pwrite\",\"d\":%d,\"fd\":%d,\"off\":%ld,\"req\":%zu,\"r\":%zd,\"inj\":%d,\"k\":%ld}",
                 g_cur, vfd, (long)off, n, r, inj, g_ncall);
    }
    errno = e;
    return r;
}

extern "C" int
__wrap_unlink(const char* path)
{
    if (g_cur < 0)
        return __real_unlink(path);
    int r = __real_unlink(path);
    int e = errno;
    if (!quiet())
        emit("{\"e\":\"Unlink\",\"d\":%d,\"path\":%d,\"r\":%d}", g_cur, path_id(path), r);
    errno = e;
    return r;
}

extern "C" int
__wrap_access(const char* path, int mode)
{
    if (g_cur < 0)
        return __real_access(path, mode);
    int r = __real_access(path, mode);
    int e = errno;
    if (!quiet())
        emit("{\"e\":\"Access\",\"d\":%d,\"path\":%d,\"r\":%d}", g_cur, path_id(path), r);
    errno = e;
    return r;
}

// ------------------------------------------------------------------------------------------------ driver plumbing
static bool g_verbose = false; // FILES_SEQ_LOG=1: print the library's log lines to stderr
static void
reporter(int is_error, const char* file, int line, const char* function, const char* msg)
{
    if (g_verbose)
        fprintf(stderr, "%s%s(%d) %s: %s\n", is_error ? "ERROR " : "", file, line, function, msg);
}
static struct Driver* g_driver = 0;
extern "C" struct Driver*
device_manager_get_driver(const struct DeviceManager*, const struct DeviceIdentifier*)
{
    return g_driver;
}

// ------------------------------------------------------------------------------------------------ cases
struct Dev
{
    std::string kind;
    struct Storage* s = 0;
    int pid = -1;        // path configured by the last accepted set
    bool started = false; // a start returned Running and the file was not read back yet
    int run_pid = -1;     // the path that was configured when that start was made (a set while running changes pid, not the open file)
};

struct Case
{
    long id = 0;
    size_t unit = 0;
    long stack_kb = 256;
    int timeout_s = 20;
    long fault_at = 0;
    bool fault_p = false;
    std::map<int, std::string> kinds;
    std::map<int, std::string> paths;
    std::map<int, std::string> metas;
    std::vector<std::vector<std::string>> ops;
};

static std::string g_workdir;

static int
device_id_of(const std::string& k)
{
    if (k == "raw")
        return BasicDevice_Storage_Raw;
    if (k == "tiff")
        return BasicDevice_Storage_Tiff;
    if (k == "trash")
        return BasicDevice_Storage_Trash;
    return BasicDevice_Storage_SideBySideTiffJson;
}

static int
sample_type(const std::string& t)
{
    const char* names[] = { "u8", "u16", "i8", "i16", "f32", "u10", "u12", "u14" };
    for (int i = 0; i < 8; ++i)
        if (t == names[i])
            return i;
    return SampleType_u8;
}

static size_t
bpp_of(int ty)
{
    return (ty == SampleType_u8 || ty == SampleType_i8) ? 1 : (ty == SampleType_f32 ? 4 : 2);
}

static std::vector<std::string>
split(const std::string& s, char c)
{
    std::vector<std::string> v;
    size_t a = 0;
    while (true) {
        size_t b = s.find(c, a);
        v.push_back(s.substr(a, b == std::string::npos ? b : b - a));
        if (b == std::string::npos)
            break;
        a = b + 1;
    }
    return v;
}

static void
read_back(int slot, Dev& d, size_t unit)
{
    if (d.kind != "raw" || !d.started || d.run_pid < 0)
        return;
    d.started = false;
    std::string p;
    for (auto& kv : g_paths)
        if (kv.second == d.run_pid)
            p = kv.first;
    FILE* f = fopen(p.c_str(), "rb");
    if (!f) {
        emit("{\"e\":\"FileRead\",\"d\":%d,\"path\":%d,\"exists\":false,\"size\":0,\"cells\":[]}", slot, d.run_pid);
        return;
    }
    std::vector<uint8_t> b;
    uint8_t t[4096];
    size_t n;
    while ((n = fread(t, 1, sizeof t, f)) > 0)
        b.insert(b.end(), t, t + n);
    fclose(f);
    std::string c = unit ? cells_json(b.data(), b.size(), unit) : std::string("[]");
    emit("{\"e\":\"FileRead\",\"d\":%d,\"path\":%d,\"exists\":true,\"size\":%zu,\"cells\":%s}", slot, d.run_pid, b.size(), c.c_str());
}

static void
on_segv(int sig, siginfo_t* si, void* uc_)
{
    ucontext_t* uc = (ucontext_t*)uc_;
    uintptr_t sp = 0;
#if defined(__x86_64__)
    sp = (uintptr_t)uc->uc_mcontext.gregs[REG_RSP];
#endif
    uintptr_t a = (uintptr_t)si->si_addr;
    uintptr_t dist = a > sp ? a - sp : sp - a;
    _exit(dist < (1u << 16) ? 91 : 92); // 91 = fault next to the stack pointer (stack exhausted), 92 = other crash
}

static void
run_case_child(const Case& c)
{
    // small stack + watchdog + crash classification
    struct rlimit rl = { (rlim_t)c.stack_kb * 1024, (rlim_t)c.stack_kb * 1024 };
    setrlimit(RLIMIT_STACK, &rl);
    static char alt[1 << 16];
    stack_t ss = {};
    ss.ss_sp = alt;
    ss.ss_size = sizeof alt;
    sigaltstack(&ss, 0);
    struct sigaction sa = {};
    sa.sa_sigaction = on_segv;
    sa.sa_flags = SA_ONSTACK | SA_SIGINFO;
    sigaction(SIGSEGV, &sa, 0);
    sigaction(SIGBUS, &sa, 0);
    alarm(c.timeout_s);

    for (int v = 0; v <= VFD_MAX; ++v)
        g_vfd[v] = -1;
    g_unit = c.unit;
    g_fault_at = c.fault_at;
    g_fault_persistent = c.fault_p;
    g_ncall = 0;
    g_paths.clear();
    for (auto& kv : c.paths) {
        std::string full = g_workdir + "/" + kv.second;
        g_paths[full] = kv.first;
        g_paths[full + "/data.tif"] = 100 + kv.first;
        g_paths[full + "/metadata.json"] = 200 + kv.first;
    }
    std::map<int, Dev> devs;
    for (auto& kv : c.kinds)
        devs[kv.first].kind = kv.second;
    std::map<int, uint64_t> acq; // acquisitions started per slot (varies the pixel pattern)

    for (auto op : c.ops) {
        // optional short-write script
        g_sw.clear();
        g_sw_pos = 0;
        for (size_t i = 0; i < op.size(); ++i)
            if (op[i] == "sw") {
                if (i + 1 < op.size())
                    g_sw = split(op[i + 1], ',');
                op.resize(i);
                break;
            }
        const std::string& name = op[0];
        const int slot = atoi(op[1].c_str());
        Dev& d = devs[slot];
        g_os_events = 0;
        g_log_data = d.kind == "raw";
        if (name == "open") {
            struct DeviceIdentifier id = {};
            id.kind = DeviceKind_Storage;
            id.device_id = (uint8_t)device_id_of(d.kind);
            emit("{\"e\":\"Call\",\"d\":%d,\"op\":\"open\"}", slot);
            g_cur = slot;
            d.s = storage_open(0, &id);
            g_cur = -1;
            emit("{\"e\":\"Ret\",\"d\":%d,\"op\":\"open\",\"rc\":%d,\"st\":%d}", slot, d.s ? 0 : 1,
                 d.s ? (int)storage_get_state(d.s) : 0);
            continue;
        }
        if (!d.s) {
            emit("{\"e\":\"Skip\",\"d\":%d,\"op\":\"%s\"}", slot, name.c_str());
            continue;
        }
        if (name == "set") {
            const int pid = atoi(op[2].c_str());
            std::string full = g_workdir + "/" + c.paths.at(pid);
            std::string uri = (op[3] == "file" ? "file://" : "") + full;
            const char* meta = 0;
            size_t nmeta = 0;
            std::string m;
            if (op[4] != "-") {
                m = c.metas.at(atoi(op[4].c_str()));
                meta = m.c_str();
                nmeta = m.size() + 1;
            }
            struct PixelScale ps = { atof(op[5].c_str()), atof(op[6].c_str()) };
            struct StorageProperties props = {};
            storage_properties_init(&props, 0, uri.c_str(), uri.size() + 1, meta, nmeta, ps, 0);
            emit("{\"e\":\"Call\",\"d\":%d,\"op\":\"set\",\"path\":%d,\"form\":\"%s\",\"meta\":%s}", slot, pid, op[3].c_str(),
                 meta ? "true" : "false");
            g_cur = slot;
            int rc = storage_set(d.s, &props);
            g_cur = -1;
            int st = storage_get_state(d.s);
            emit("{\"e\":\"Ret\",\"d\":%d,\"op\":\"set\",\"rc\":%d,\"st\":%d}", slot, rc, st);
            if (rc == Device_Ok) // accepted (a running device stays Running)
                d.pid = pid;
            storage_properties_destroy(&props);
        } else if (name == "start") {
            emit("{\"e\":\"Call\",\"d\":%d,\"op\":\"start\"}", slot);
            g_cur = slot;
            int rc = storage_start(d.s);
            g_cur = -1;
            int st = storage_get_state(d.s);
            emit("{\"e\":\"Ret\",\"d\":%d,\"op\":\"start\",\"rc\":%d,\"st\":%d}", slot, rc, st);
            if (st == DeviceState_Running) {
                d.started = true;
                d.run_pid = d.pid;
                ++acq[slot];
            }
        } else if (name == "append") {
            std::vector<uint8_t> pkt;
            std::string fj = "[";
            // a frame token with a ninth field `z` is a single-frame packet whose pixel bytes are all zero, taken from
            // untouched calloc memory (frames of more than a GiB for the large-file case)
            uint8_t* zpkt = 0;
            size_t znb = 0;
            for (size_t i = 2; i < op.size(); ++i) {
                auto f = split(op[i], ',');
                if (f.size() >= 9 && f[8] == "z" && op.size() == 3) {
                    const uint32_t w = atoi(f[0].c_str()), h = atoi(f[1].c_str());
                    const int ty = sample_type(f[2]);
                    znb = sizeof(struct VideoFrame) + (size_t)w * h * bpp_of(ty) + atoi(f[3].c_str());
                    zpkt = (uint8_t*)calloc(1, znb);
                    if (!zpkt)
                        _exit(96);
                    struct VideoFrame* hdr = (struct VideoFrame*)zpkt;
                    hdr->bytes_of_frame = znb;
                    hdr->shape.dims = { 1, w, h, 1 };
                    hdr->shape.strides = { 1, 1, (int64_t)w, (int64_t)w * h };
                    hdr->shape.type = (enum SampleType)ty;
                    hdr->frame_id = strtoull(f[4].c_str(), 0, 10);
                    hdr->hardware_frame_id = strtoull(f[5].c_str(), 0, 10);
                    hdr->timestamps.acq_thread = strtoull(f[6].c_str(), 0, 10);
                    hdr->timestamps.hardware = strtoull(f[7].c_str(), 0, 10);
                    char t[160];
                    snprintf(t, sizeof t, "{\"w\":%u,\"h\":%u,\"ty\":\"%s\",\"nb\":0,\"id\":%llu,\"z\":true}", w, h, f[2].c_str(),
                             (unsigned long long)hdr->frame_id);
                    fj += t;
                    break;
                }
                const uint32_t w = atoi(f[0].c_str()), h = atoi(f[1].c_str());
                const int ty = sample_type(f[2]);
                const size_t pad = atoi(f[3].c_str());
                const size_t npx = (size_t)w * h * bpp_of(ty);
                const size_t nb = sizeof(struct VideoFrame) + npx + pad;
                const size_t o = pkt.size();
                pkt.resize(o + nb, 0xEE);
                struct VideoFrame hdr = {};
                hdr.bytes_of_frame = nb;
                hdr.shape.dims = { 1, w, h, 1 };
                hdr.shape.strides = { 1, 1, (int64_t)w, (int64_t)w * h };
                hdr.shape.type = (enum SampleType)ty;
                hdr.frame_id = strtoull(f[4].c_str(), 0, 10);
                hdr.hardware_frame_id = strtoull(f[5].c_str(), 0, 10);
                hdr.timestamps.acq_thread = strtoull(f[6].c_str(), 0, 10);
                hdr.timestamps.hardware = strtoull(f[7].c_str(), 0, 10);
                memcpy(pkt.data() + o, &hdr, sizeof hdr);
                uint8_t* px = pkt.data() + o + sizeof hdr;
                const uint64_t a = acq[slot];
                for (size_t j = 0; j < npx; ++j)
                    px[j] = (uint8_t)((hdr.frame_id * 37 + j * 11 + a * 5 + (uint64_t)c.id * 3 + 3) % 251);
                char t[160];
                snprintf(t, sizeof t, "%s{\"w\":%u,\"h\":%u,\"ty\":\"%s\",\"nb\":%zu,\"id\":%llu}", i > 2 ? "," : "", w, h,
                         f[2].c_str(), nb, (unsigned long long)hdr.frame_id);
                fj += t;
            }
            fj += "]";
            std::string cells = (g_log_data && g_unit) ? cells_json(pkt.data(), pkt.size(), g_unit) : std::string("[]");
            emit("{\"e\":\"Call\",\"d\":%d,\"op\":\"append\",\"nb\":%zu,\"frames\":%s,\"cells\":%s}", slot, pkt.size(), fj.c_str(),
                 cells.c_str());
            g_cur = slot;
            int rc = zpkt ? storage_append(d.s, (struct VideoFrame*)zpkt, (struct VideoFrame*)(zpkt + znb))
                          : storage_append(d.s, (struct VideoFrame*)pkt.data(), (struct VideoFrame*)(pkt.data() + pkt.size()));
            g_cur = -1;
            free(zpkt);
            emit("{\"e\":\"Ret\",\"d\":%d,\"op\":\"append\",\"rc\":%d,\"st\":%d}", slot, rc, (int)storage_get_state(d.s));
        } else if (name == "stop") {
            emit("{\"e\":\"Call\",\"d\":%d,\"op\":\"stop\"}", slot);
            g_cur = slot;
            int rc = storage_stop(d.s);
            g_cur = -1;
            emit("{\"e\":\"Ret\",\"d\":%d,\"op\":\"stop\",\"rc\":%d,\"st\":%d}", slot, rc, (int)storage_get_state(d.s));
            read_back(slot, d, c.unit);
        } else if (name == "close") {
            emit("{\"e\":\"Call\",\"d\":%d,\"op\":\"close\"}", slot);
            g_cur = slot;
            storage_close(d.s);
            g_cur = -1;
            d.s = 0;
            emit("{\"e\":\"Ret\",\"d\":%d,\"op\":\"close\",\"rc\":0,\"st\":0}", slot);
            read_back(slot, d, c.unit);
        }
    }
    _exit(0);
}

int
main(int argc, char** argv)
{
    if (argc < 4) {
        fprintf(stderr, "usage: files_seq <cases> <trace> <workdir>\n");
        return 2;
    }
    g_workdir = argv[3];
    FILE* f = fopen(argv[1], "r");
    if (!f) {
        perror("cases");
        return 2;
    }
    g_trace = __real_open(argv[2], O_WRONLY | O_CREAT | O_TRUNC | O_APPEND, 0644);
    if (g_trace < 0) {
        perror("trace");
        return 2;
    }
    g_verbose = getenv("FILES_SEQ_LOG") != 0;
    logger_set_reporter(reporter);
    g_driver = acquire_driver_init_v0(reporter);
    if (!g_driver) {
        fprintf(stderr, "driver init failed\n");
        return 2;
    }

    std::vector<Case> cases;
    {
        char* line = 0;
        size_t cap = 0;
        Case cur;
        bool in = false;
        while (getline(&line, &cap, f) > 0) {
            std::string l(line);
            while (!l.empty() && (l.back() == '\n' || l.back() == '\r'))
                l.pop_back();
            if (l.empty() || l[0] == '#')
                continue;
            std::vector<std::string> t;
            {
                size_t a = 0;
                while (a < l.size()) {
                    while (a < l.size() && l[a] == ' ')
                        ++a;
                    size_t b = l.find(' ', a);
                    if (a < l.size())
                        t.push_back(l.substr(a, b == std::string::npos ? b : b - a));
                    if (b == std::string::npos)
                        break;
                    a = b;
                }
            }
            if (t.empty())
                continue;
            if (t[0] == "case") {
                cur = Case();
                cur.id = atol(t[1].c_str());
                in = true;
            } else if (!in) {
                continue;
            } else if (t[0] == "unit")
                cur.unit = atol(t[1].c_str());
            else if (t[0] == "stack")
                cur.stack_kb = atol(t[1].c_str());
            else if (t[0] == "timeout")
                cur.timeout_s = atoi(t[1].c_str());
            else if (t[0] == "fault") {
                cur.fault_at = atol(t[1].c_str());
                cur.fault_p = t.size() > 2 && t[2] == "p";
            } else if (t[0] == "dev")
                cur.kinds[atoi(t[1].c_str())] = t[2];
            else if (t[0] == "path")
                cur.paths[atoi(t[1].c_str())] = t[2];
            else if (t[0] == "meta") {
                size_t p = l.find(t[1], 5);
                cur.metas[atoi(t[1].c_str())] = l.substr(p + t[1].size() + 1);
            } else if (t[0] == "op") {
                cur.ops.push_back(std::vector<std::string>(t.begin() + 1, t.end()));
            } else if (t[0] == "end") {
                cases.push_back(cur);
                in = false;
            }
        }
        free(line);
        fclose(f);
    }

    long ncrash = 0;
    for (const Case& c : cases) {
        {
            std::string ds = "[";
            bool first = true;
            for (auto& kv : c.kinds) {
                char t[96];
                snprintf(t, sizeof t, "%s{\"d\":%d,\"kind\":\"%s\"}", first ? "" : ",", kv.first, kv.second.c_str());
                ds += t;
                first = false;
            }
            ds += "]";
            uint8_t zeros[4096] = { 0 };
            emit("{\"e\":\"Reset\",\"x\":%ld,\"u\":%zu,\"z\":%u,\"fault\":%ld,\"pers\":%s,\"devs\":%s}", c.id, c.unit,
                 c.unit && c.unit <= sizeof zeros ? cell_hash(zeros, c.unit) : 0, c.fault_at, c.fault_p ? "true" : "false",
                 ds.c_str());
        }
        pid_t pid = fork();
        if (pid < 0) {
            perror("fork");
            return 2;
        }
        if (pid == 0)
            run_case_child(c);
        int ws = 0;
        waitpid(pid, &ws, 0);
        const char* how = "ok";
        int sig = 0, code = 0;
        if (WIFSIGNALED(ws)) {
            sig = WTERMSIG(ws);
            how = sig == SIGALRM ? "Timeout" : "Crash";
        } else {
            code = WEXITSTATUS(ws);
            if (code == 91)
                how = "StackOverflow";
            else if (code == 92)
                how = "Crash";
            else if (code != 0)
                how = "Crash";
        }
        if (strcmp(how, "ok"))
            ++ncrash;
        emit("{\"e\":\"Exit\",\"how\":\"%s\",\"sig\":%d,\"code\":%d}", how, sig, code);
    }
    printf("{\"cases\":%zu,\"abnormal\":%ld}\n", cases.size(), ncrash);
    return 0;
}
